"""Per-property check specifications (read by tools/checklib.py and tools/gen_manifest.py).

`theorems` is the pinned list: the check fails if a pinned theorem disappears,
if a Props module declares a theorem that is not pinned, or if `#print axioms`
of any of them leaves {propext, Classical.choice, Quot.sound}.
"""

TB_STD = [
    "std / smallvec / time crates are modelled, not verified",
]

SPECS = {}

SPECS["C17"] = dict(
    title="Arena reads return exactly what the reader delivered, under any I/O faults",
    lean_modules=["Woodpile.Props.C17"],
    theorems=[
        "Woodpile.Props.C17.count0_no_read",
        "Woodpile.Props.C17.calls_le_attempts",
        "Woodpile.Props.C17.read_n_spec",
        "Woodpile.Props.C17.read_n_releases_unread",
    ],
    families=[dict(name="readn", quick=3000, thorough=400000)],
    technique="Lean 4 proof (induction over the retry loop, all reader scripts) + model/implementation correspondence",
    design_ref="DESIGN.md section 5, C17",
    level_text=("Kernel-checked theorems about a Lean model of ByteArena::read_n/read_n_impl (Woodpile.ReadN) for every reader "
                "script, count, attempt limit and arena state: call bound, request sizes, stop conditions, delivered-prefix, "
                "ok/err verdict, count=0, release of the unread tail. The model is tied to /repo by running the real read_n "
                "(scripted Read impl) and the compiled model on the same enumerated + random op sequences and diffing "
                "results, request sizes and arena.remaining(); a direct oracle re-checks the property on the real calls."),
    level_note=("Trusted: Lean kernel + 3 standard axioms; the correspondence harness and its generators; readers that "
                "return more than the buffer length are outside the model (Read's contract). Encoder/Decoder-level "
                "encode_read/decode_read are covered through the hcobs families."),
    trusted_base=["Rust std::io::Read contract (a reader never reports more bytes than the buffer holds)"],
    assumptions=["64-bit usize; allocation failure (OOM abort) not modelled"],
)

SPECS["C12"] = dict(
    title="MessageView is total on untrusted bytes and its accessors agree",
    lean_modules=["Woodpile.Props.C12"],
    theorems=[
        "Woodpile.Props.C12.new_no_panic",
        "Woodpile.Props.C12.new_accepts_iff",
        "Woodpile.Props.C12.accessors_agree",
        "Woodpile.Props.C12.no_panic",
        "Woodpile.Props.C12.values_tile",
        "Woodpile.Props.C12.oob_none",
        "Woodpile.Props.C12.std_search_ok",
        "Woodpile.Props.C12.find_sound",
    ],
    families=[dict(name="tlvview", quick=3000, thorough=1500000)],
    technique="Lean 4 proof (all byte strings; checked slicing so that panic-freedom is a theorem) + model/implementation correspondence",
    design_ref="DESIGN.md section 5, C12",
    level_text=("Kernel-checked theorems about a Lean model of rough_tlv's MessageView (Woodpile.RoughTlv: View.new and every "
                "accessor, with every slice expression checked so that a panic is an observable `none`) for every byte string. "
                "The model is tied to /repo by running the real MessageView::new and all accessors "
                "(len/is_empty/tags/tags_match_exactly/iter/get/get_value/find_tag/find on indices 0..N+1, 2^32, usize::MAX and on "
                "present/absent tags) and the compiled model on the same inputs - every byte string of length <= 8 over "
                "{00,01,02,FF}, every string of <= 5 words over {0,1,2,3,4,FFFFFFFF} with 0..3 trailing bytes, and structured random "
                "headers (truncation at every length, N near the buffer size and near 2^32, equal/decreasing offsets and tags, "
                "offsets beyond the payload, trailing bytes, duplicate tags) - and diffing all results; a direct oracle re-checks the "
                "property on the real accessors against an acceptance predicate written from the property text."),
    level_note=("Trusted: Lean kernel + 3 standard axioms; the correspondence harness and its generators; core::slice::binary_search "
                "is modelled as Rust 1.95 implements it (last match among equal tags) and the theorems hold for any search that returns "
                "a matching index. For N = 0 trailing bytes after the count word are accepted and belong to no value (the tiling "
                "statement is about N >= 1)."),
    trusted_base=["Rust std slice::binary_search / slice indexing semantics (modelled, not verified)"],
    assumptions=["64-bit usize (8 * N cannot overflow for N < 2^32)"],
)

SPECS["C11"] = dict(
    title="Rough TLV round trip and layout: encode then view yields the same pairs",
    lean_modules=["Woodpile.Props.C11"],
    theorems=[
        "Woodpile.Props.C11.sort_is_stable",
        "Woodpile.Props.C11.accepted_entries",
        "Woodpile.Props.C11.encode_layout",
        "Woodpile.Props.C11.len_eq",
        "Woodpile.Props.C11.nested_lawful",
        "Woodpile.Props.C11.view_accepts",
        "Woodpile.Props.C11.view_roundtrip",
        "Woodpile.Props.C11.view_find",
        "Woodpile.Props.C11.reject_iff",
        "Woodpile.Props.C11.sorted_reject_iff",
    ],
    families=[dict(name="tlv", quick=3000, thorough=300000)],
    technique="Lean 4 proof (all pair lists, generic lawful value type, saturating usize/u32 arithmetic) + model/implementation correspondence",
    design_ref="DESIGN.md section 5, C11",
    level_text=("Kernel-checked theorems about a Lean model of rough_tlv's MessageWrapper (three constructors, compute_len with its "
                "saturating usize arithmetic, encode with its saturating u32 accumulation and asserts) and MessageView, for every "
                "list of pairs and every lawful value type (nested messages are an instance; accepted messages are proved lawful "
                "values). The model is tied to /repo by running the real constructors (value types Cow<[u8]>, Cow<str>, &[u8] and a "
                "harness enum with borrowed/owned bytes, nested messages up to depth 3 and values that only report a length, used "
                "for the 2^31 decision logic), to_rough_tlv into an OwningIovec and into an hcobs::Encoder sink, and MessageView on "
                "the result, against the compiled model on the same enumerated + random op sequences; a direct oracle compares the "
                "emitted bytes with an independently written reference layout, the emitted length with rough_tlv_len(), the view's "
                "iter/get/get_value/find/tags with the stably sorted pairs, the accept/reject decision with u128 arithmetic, and the "
                "HCOBS-sink output (decoded by the real Decoder) with the same reference."),
    level_note=("Trusted: Lean kernel + 3 standard axioms; the correspondence harness and its generators; std's sort_by_key is "
                "modelled as 'the' stable sort (unique result). Sizes near 2^31 are proved and exercised only through values that "
                "report a length (constructors only, never encoded); a pair count above i32::MAX is proved only (it would need a "
                "2^31-element slice; the count limit is implied by the total-size limit anyway). The HCOBS sink is checked by the "
                "harness oracle only (sink-agnosticism is a C02/C01 matter)."),
    trusted_base=["Rust std sort_by_key (stable) and slice::binary_search (modelled, not verified)"],
    assumptions=["64-bit usize"],
)

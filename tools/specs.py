"""Per-property check specifications (read by tools/checklib.py and tools/gen_manifest.py).

`theorems` is the pinned list: the check fails if a pinned theorem disappears,
if a Props module declares a theorem that is not pinned, or if `#print axioms`
of any of them leaves {propext, Classical.choice, Quot.sound}.
"""

TB_STD = [
    "std / smallvec / time crates are modelled, not verified",
]

SPECS = {}

SPECS["C17"] = dict(
    title="Arena reads return exactly what the reader delivered, under any I/O faults",
    lean_modules=["Woodpile.Props.C17"],
    theorems=[
        "Woodpile.Props.C17.count0_no_read",
        "Woodpile.Props.C17.calls_le_attempts",
        "Woodpile.Props.C17.read_n_spec",
        "Woodpile.Props.C17.read_n_releases_unread",
    ],
    families=[dict(name="readn", quick=3000, thorough=400000)],
    technique="Lean 4 proof (induction over the retry loop, all reader scripts) + model/implementation correspondence",
    design_ref="DESIGN.md section 5, C17",
    level_text=("Kernel-checked theorems about a Lean model of ByteArena::read_n/read_n_impl (Woodpile.ReadN) for every reader "
                "script, count, attempt limit and arena state: call bound, request sizes, stop conditions, delivered-prefix, "
                "ok/err verdict, count=0, release of the unread tail. The model is tied to /repo by running the real read_n "
                "(scripted Read impl) and the compiled model on the same enumerated + random op sequences and diffing "
                "results, request sizes and arena.remaining(); a direct oracle re-checks the property on the real calls."),
    level_note=("Trusted: Lean kernel + 3 standard axioms; the correspondence harness and its generators; readers that "
                "return more than the buffer length are outside the model (Read's contract). Encoder/Decoder-level "
                "encode_read/decode_read are covered through the hcobs families."),
    trusted_base=["Rust std::io::Read contract (a reader never reports more bytes than the buffer holds)"],
    assumptions=["64-bit usize; allocation failure (OOM abort) not modelled"],
)


# ---------------------------------------------------------------------------------------------
# OwningIovec family (Layer B structural model, Woodpile.Iovec): C03, C04, C05, C10, C20
_IOV_NOTE = ("Trusted: Lean kernel + 3 standard axioms; the correspondence harness (wp_harness iovec vs wpmodel iovec) and its "
             "generators; symbolic addresses (chunk ordinal + offset) stand for raw pointers - that Arc/Box/raw-pointer code "
             "implements them is checked by the H1 live-chunk registry comparison on sampled histories, not proved; "
             "std Vec/VecDeque/Arc, smallvec modelled; 64-bit usize; allocation failure not modelled.")
_IOV_FAM = dict(name="iovec", quick=1500, thorough=48000)

def _iov(pid, title, theorems, modules, vtags, obs, text, partial=""):
    fam = dict(_IOV_FAM)
    fam["obs_prefixes"] = obs
    SPECS[pid] = dict(
        title=title, lean_modules=modules, theorems=theorems, families=[fam], vtags=vtags,
        technique="Lean 4 proof over a structural model of OwningIovec (invariants by induction over operation histories) + model/implementation correspondence with live-chunk registry hook",
        design_ref="DESIGN.md section 5, " + pid,
        level_text=text, level_note=_IOV_NOTE + partial,
        trusted_base=["hook H1 (ByteArena::verif_live_chunks) reports the allocator's live chunks faithfully"],
        assumptions=["single-threaded histories", "caller buffers outlive the iovec (the borrow checker's job)"],
    )

_iov("C03", "OwningIovec is a faithful FIFO byte pipe", [], [], ["C03"], ["A", "R"],
     "Kernel-checked refinement of the structural OwningIovec model to an abstract byte pipe (theorem list in tools/specs.py); "
     "correspondence of the model with the real crate over random histories of the full producer/consumer API; shadow-buffer oracle.")
_iov("C04", "Pending backpatches are never observable; filled ones unblock everything", [], [], ["C04"], ["A", "R"],
     "Kernel-checked theorems on the structural model: the stable prefix never contains a pending placeholder or later bytes; "
     "ok-iff-no-pending; all-filled unblocks; correspondence + shadow-buffer oracle with placeholders.")
_iov("C05", "Every slice handed out points into live memory",
     ["Woodpile.Props.C05.slice_guarded",
      "Woodpile.Props.C05.detached_anchored",
      "Woodpile.Props.C05.cache_holds_chunk",
      "Woodpile.Props.C05.reachable_has_caps",
      "Woodpile.Props.C05.exposed_live",
      "Woodpile.Props.C05.below_bump",
      "Woodpile.Props.C05.no_overlap",
      "Woodpile.Props.C05.released_only_when_unreachable"],
     ["Woodpile.Props.C05"], ["C05"], ["A", "S", "T", "L", "R"],
     "Kernel-checked invariants of the structural multi-object model over ALL histories of the iovec op vocabulary (World.step, cross-checked "
     "against the driver at compile time): (G) every owned slice is guarded by an anchor at or after the one that counts it, (A) detached slices "
     "carry their chunk's anchor, (C) caches hold their chunk, (B) one cache per chunk, every slice of every object below the bump pointer and inside "
     "the chunk's allocation-time capacity, fresh allocations above everything readable (no_overlap); exposed_live / released_only_when_unreachable. "
     "Correspondence of slice placement and live-chunk set with the real allocator through hook H1; containment oracle incl. scripted "
     "anchored-slice ownership scenarios.",
     " PARTIAL BY NATURE: memory safety of the compiled unsafe code is sampled (registry + debug poisoning), not proved. The anchored codec "
     "input is modelled as the composite push(slice); push_anchor(anchor); the raw unsafe components() route is the caller's obligation.")
_iov("C10", "Arena memory is reclaimed: no leak after drop, bounded footprint in streaming",
     ["Woodpile.Props.C10.live_iff_held",
      "Woodpile.Props.C10.drop_all_releases",
      "Woodpile.Props.C10.dropAll_releases",
      "Woodpile.Props.C10.consumed_anchors_released",
      "Woodpile.Props.C10.front_anchor_counts",
      "Woodpile.Props.C10.findHintSize_le",
      "Woodpile.Props.C10.streaming_footprint",
      "Woodpile.Props.C10.streaming_footprint_prod"],
     ["Woodpile.Props.C10"], ["C10"], ["L"],
     "Kernel-checked: dropping every object leaves no holder (derived liveness); anchors are released from the front as soon as their slices are "
     "consumed; streaming footprint: for one iovec fed by push_copy/register_patch/backfill (<= P bytes per push, one pending placeholder, <= B bytes "
     "behind it) and drained after every call, the live chunks are covered by at most 2B/m0+2 chunks of capacity <= S (production: 33 x 1 MiB for the "
     "HCOBS encoder; findHintSize_le for the extracted tuning constants). Correspondence of the live-chunk set after every operation; leak oracle on "
     "the process-wide counters at the end of every history.",
     " PARTIAL BY NATURE: leaks below the model (Arc/Box internals) are only visible to the counters. The footprint constant is not tight "
     "(every chunk is charged the minimum capacity); foreign AnchoredSlices / borrowed pushes are excluded from the streaming pattern.")
_iov("C20", "A cloned or taken OwningIovec is an independent snapshot",
     ["Woodpile.Props.C20.clone_copies",
      "Woodpile.Props.C20.take_moves_all",
      "Woodpile.Props.C20.take_keeps_backfill",
      "Woodpile.Props.C20.frame_struct",
      "Woodpile.Props.C20.frame_valid",
      "Woodpile.Props.C20.frame_heap",
      "Woodpile.Props.C20.clone_independent_nonfill",
      "Woodpile.Props.C20.pending_private",
      "Woodpile.Props.C20.creach_has_history",
      "Woodpile.Props.C20.clone_independent"],
     ["Woodpile.Props.C20"], ["C20"], ["A", "R"],
     "Kernel-checked on the multi-object world model: clone_copies, take_moves_all (+ tokens still backfill the taken value), frame_struct / "
     "frame_valid for every op, frame_heap (every heap write lands above every existing slice of its chunk, or in a pending range of the backfilled "
     "iovec), pending_private, clone_independent for every op. Correspondence over histories with clone/take and interleaved suffixes "
     "on both sides; per-object shadow oracle checked on every object after every operation.",
     " clone_independent is proved at full strength (incl. backfill) for histories that clone only iovecs with no placeholder pending "
     "(pending_private: no other object's slice covers a pending placeholder range; the premise is shown necessary by a model counter-example).")

"""Per-property check specifications (read by tools/checklib.py and tools/gen_manifest.py).

`theorems` is the pinned list: the check fails if a pinned theorem disappears,
if a Props module declares a theorem that is not pinned, or if `#print axioms`
of any of them leaves {propext, Classical.choice, Quot.sound}.
"""

TB_STD = [
    "std / smallvec / time crates are modelled, not verified",
]

SPECS = {}

SPECS["C17"] = dict(
    title="Arena reads return exactly what the reader delivered, under any I/O faults",
    lean_modules=["Woodpile.Props.C17"],
    theorems=[
        "Woodpile.Props.C17.count0_no_read",
        "Woodpile.Props.C17.calls_le_attempts",
        "Woodpile.Props.C17.read_n_spec",
        "Woodpile.Props.C17.read_n_releases_unread",
    ],
    families=[dict(name="readn", quick=3000, thorough=400000)],
    technique="Lean 4 proof (induction over the retry loop, all reader scripts) + model/implementation correspondence",
    design_ref="DESIGN.md section 5, C17",
    level_text=("Kernel-checked theorems about a Lean model of ByteArena::read_n/read_n_impl (Woodpile.ReadN) for every reader "
                "script, count, attempt limit and arena state: call bound, request sizes, stop conditions, delivered-prefix, "
                "ok/err verdict, count=0, release of the unread tail. The model is tied to /repo by running the real read_n "
                "(scripted Read impl) and the compiled model on the same enumerated + random op sequences and diffing "
                "results, request sizes and arena.remaining(); a direct oracle re-checks the property on the real calls."),
    level_note=("Trusted: Lean kernel + 3 standard axioms; the correspondence harness and its generators; readers that "
                "return more than the buffer length are outside the model (Read's contract). Encoder/Decoder-level "
                "encode_read/decode_read are covered through the hcobs families."),
    trusted_base=["Rust std::io::Read contract (a reader never reports more bytes than the buffer holds)"],
    assumptions=["64-bit usize; allocation failure (OOM abort) not modelled"],
)

SPECS["C08"] = dict(
    title="StreamChunker tiles the input stream exactly, sentinels never hidden in data",
    lean_modules=["Woodpile.Props.C08"],
    theorems=[
        "Woodpile.Props.C08.clamp_in_code",
        "Woodpile.Props.C08.pumps_succeed_and_tile",
        "Woodpile.Props.C08.tiles_of_run",
        "Woodpile.Props.C08.eof_only_at_end",
        "Woodpile.Props.C08.tiling",
        "Woodpile.Props.C08.eof_reached",
        "Woodpile.Props.C08.offsets_are_ends",
        "Woodpile.Props.C08.sentinel_is_occurrence",
        "Woodpile.Props.C08.data_nonempty_stuff_free",
        "Woodpile.Props.C08.no_straddle",
        "Woodpile.Props.C08.chunks_regroup_to_segments",
        "Woodpile.Props.C08.attempts_irrelevant",
        "Woodpile.Props.C08.arena_irrelevant",
    ],
    families=[dict(name="chunker", quick=3000, thorough=64000)],
    technique="Lean 4 proof (invariant over pump calls on top of the read_n model; all streams, well-behaved read schedules, "
              "block sizes and arena states) + model/implementation correspondence + reference splitter oracle",
    design_ref="DESIGN.md section 5, C08 (finding F1, observation O1)",
    level_text=("Kernel-checked theorems about a Lean model of StreamChunker::pump (Woodpile.Stream.pump: Read::chain of the "
                "carry-over with the reader, read_n with unbounded attempts, the refill loop, the sentinel / split-position arms) "
                "for every stream, every well-behaved read script (short reads of any size >= 1, Interrupted retries, EOF only at "
                "the real end), every per-call block size including 0 and 1, every arena state and every clamp >= 2 (the code's "
                "clamp is re-extracted and checked): every call returns a chunk, emitted ++ buf ++ unread = stream, offsets are "
                "end positions, Eof only at the end and sticky, Eof reached, Data chunks non-empty and FE FD-free, no straddle, "
                "every Sentinel is an occurrence and regrouping the chunks yields exactly the left-to-right FE FD split of the "
                "stream. The old clamp (1) is shown to break it (F1 witness). The model is tied to /repo by running the real "
                "pump and the compiled model on the same enumerated (all streams over {FE,FD,01,61} up to length 5/6 x block "
                "sizes 0-4 x read sizes) and random cases and diffing chunks, offsets, request sizes and reader positions; a "
                "shadow-state oracle with a reference splitter re-checks the property on the real chunks."),
    level_note=("Trusted: Lean kernel + 3 standard axioms; the correspondence harness and its generators; std's Read::chain is "
                "modelled (carry handed over by the first read). Hard I/O errors and premature zero-byte reads are exercised for "
                "correspondence only (outside the property's quantifier, observation O1)."),
    trusted_base=["std::io::Read::chain semantics (first reader until it returns 0, then the second)"],
    assumptions=["64-bit usize; scripts shorter than usize::MAX answers; stream offsets below 2^64"],
)

SPECS["C06"] = dict(
    title="StreamReader returns exactly the valid delimited records of any byte stream",
    lean_modules=["Woodpile.Props.C06"],
    theorems=[
        "Woodpile.Props.C06.recordsAll_eq",
        "Woodpile.Props.C06.recordsStd_eq",
        "Woodpile.Props.C06.expectedSeq_spelled_out",
        "Woodpile.Props.C06.splitIndep_of_spec",
        "Woodpile.Props.C06.decodePieces_eq_spec",
        "Woodpile.Props.C06.reader_keepgoing",
        "Woodpile.Props.C06.reader_std_judge",
        "Woodpile.Props.C06.reader_total",
        "Woodpile.Props.C06.reader_schedule_independent",
        "Woodpile.Props.C06.reader_generic_judge",
        "Woodpile.Props.C06.std_judges_ok",
        "Woodpile.Props.C06.last_sentinel_offset_correct",
        "Woodpile.Props.C06.clamp_in_code",
        "Woodpile.Props.C06.resync_segment",
        "Woodpile.Props.C06.resync",
    ],
    families=[dict(name="reader", quick=3000, thorough=48000)],
    technique="Lean 4 proof (per-chunk invariant of next_record_bytes over the C08 chunker model and the incremental decoder "
              "model; all streams, well-behaved read schedules, block sizes, judge parameters) + model/implementation "
              "correspondence + reference splitter/decoder oracle",
    design_ref="DESIGN.md section 5, C06 (finding F1, observation O1)",
    level_text=("Kernel-checked theorems about a Lean model of StreamReader::next_record_bytes (Woodpile.Stream.next: retry loop, "
                "SkipSentinel/DecodeRecord/SkipRecord states, judge consultation after every chunk, decode_anchored through the "
                "incremental decoder model Dec with production parameters, all five assertions as panics) on top of the C08 chunker "
                "model, for every stream, every well-behaved read script, every io_block_size, arena state and clamp >= 2: with the "
                "always-KeepGoing judge successive calls return exactly [(decoded, range) | non-empty FE FD-free segments of the "
                "stream that Dec accepts] in order and then None forever; with chunk_judge(max, limit) the same filtered by decoded "
                "size <= max and cut at the first segment start >= limit; never an error or a panic; results independent of "
                "schedule/block size/arena; a delimiter-free valid piece between two delimiters is returned with its exact range "
                "whatever bytes surround it (resync). The theorems assume split-independence of the incremental decoder "
                "(SplitIndep prod), which follows from the C01/C07 refinement theorem Dec = Spec.decode (splitIndep_of_spec); under "
                "it the per-segment decoder is Spec.decode (decodePieces_eq_spec). The model is tied to /repo by running the real "
                "StreamReader and the compiled model on the same enumerated (all streams over {FE,FD,00,01,61} up to length 5 x "
                "block sizes x read sizes; the crate's test vectors x limits; scripted judges) and random cases (valid records, torn "
                "writes, corruption, garbage, delimiter runs, block-aligned delimiters, EINTR, hard errors) and diffing records, "
                "ranges, last_sentinel_offset and reader positions; an independent Rust reference splitter + reference HCOBS decoder "
                "oracle re-checks the property on the real results."),
    level_note=("Trusted: Lean kernel + 3 standard axioms; the correspondence harness and its generators; the SplitIndep hypothesis "
                "until the coordinator discharges it from the decoder refinement theorem. Arbitrary FnMut judges are modelled "
                "(history-dependent), exercised by correspondence (scripted verdict lists) and covered by reader_generic_judge "
                "(never panics, output before the first None is a sub-list of the KeepGoing output) under the side condition "
                "JudgeOK; a judge answering SkipRecord on an empty range makes the real code panic "
                "(assert_eq!(range.is_empty(), state == SkipSentinel)), reproduced by model and harness alike (reported as an "
                "observation). last_sentinel_offset is a theorem for judges that never Stop (last_sentinel_offset_correct), and is compared by correspondence and checked by the oracle in all cases."),
    trusted_base=["std::io::Read::chain semantics", "SplitIndep prod (discharged by the C01/C07 decoder refinement theorem)"],
    assumptions=["64-bit usize; limit_offset None = u64::MAX is modelled as 'never'; streams shorter than 2^64 bytes"],
)

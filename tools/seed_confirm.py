#!/usr/bin/env python3
"""tools/seed_confirm.py <seed_out_dir> <name> [--checks C17,C05]

Confirms a candidate seeded change in a fresh scratch worktree of /repo
(outside /repo and /verif): (1) the workspace test suite passes with the change,
(2) the demonstration fails with the change, (3) passes without it; then runs
the named checks against the changed scratch tree (WOODPILE_REPO) and records
which of them report a violation.  On success the change is stored under
/verif/seeded/<name>/ (patch.diff, demo, meta.json).  The scratch worktree is
removed afterwards.
"""
import json, os, shutil, subprocess, sys, time
ROOT = os.path.dirname(os.path.dirname(os.path.abspath(__file__)))

def sh(cmd, cwd=None, env=None, timeout=3600):
    e = dict(os.environ); e["CARGO_NET_OFFLINE"] = "true"
    if env: e.update(env)
    p = subprocess.run(cmd, cwd=cwd, shell=isinstance(cmd, str), stdout=subprocess.PIPE, stderr=subprocess.STDOUT, env=e, timeout=timeout)
    return p.returncode, p.stdout.decode("utf-8", "replace")

def main():
    src, name = sys.argv[1], sys.argv[2]
    checks = []
    if "--checks" in sys.argv:
        checks = sys.argv[sys.argv.index("--checks") + 1].split(",")
    tier = sys.argv[sys.argv.index("--tier") + 1] if "--tier" in sys.argv else "quick"
    meta = json.load(open(os.path.join(src, "meta.json")))
    wt = "/tmp/seedconfirm/" + name
    sh("git -C /repo worktree remove --force %s" % wt)
    os.makedirs("/tmp/seedconfirm", exist_ok=True)
    rc, out = sh("git -C /repo worktree add --detach %s" % wt)
    assert rc == 0, out
    tgt = wt + "-target"
    env = {"CARGO_TARGET_DIR": tgt}
    denv = dict(env)
    if any("--cfg woodpile_verif" in c for c in meta.get("commands", [])):
        # the demonstration drives the cfg-gated test hooks
        denv["RUSTFLAGS"] = "--cfg woodpile_verif"
        denv["CARGO_TARGET_DIR"] = tgt + "-cfg"
    result = dict(confirmed=False)
    try:
        demo_rel = meta["demo_path"]
        demo_files = [f for f in os.listdir(src) if f.endswith(".rs")]
        assert demo_files, "no demo file"
        demo_src = os.path.join(src, demo_files[0])
        crate = demo_rel.split("/")[0]
        testname = os.path.basename(demo_rel)[:-3]
        # without the change: demo passes
        os.makedirs(os.path.dirname(os.path.join(wt, demo_rel)), exist_ok=True)
        shutil.copy(demo_src, os.path.join(wt, demo_rel))
        rc0, out0 = sh("cargo test -p %s --test %s --offline" % (crate, testname), cwd=wt, env=denv)
        if "running 0 tests" in out0 and "test result: ok. 0 passed" in out0.split("Running")[-1]:
            rc0 = 1  # an empty demo proves nothing
        result["demo_without_change_passes"] = rc0 == 0
        # with the change
        rc, out = sh("git apply %s" % os.path.join(os.path.abspath(src), "patch.diff"), cwd=wt)
        assert rc == 0, "patch does not apply: " + out
        rc1, out1 = sh("cargo test -p %s --test %s --offline" % (crate, testname), cwd=wt, env=denv)
        result["demo_with_change_fails"] = rc1 != 0
        os.remove(os.path.join(wt, demo_rel))
        rc2, out2 = sh("cargo test --workspace --no-fail-fast --offline", cwd=wt, env=env)
        result["suite_with_change_passes"] = rc2 == 0
        result["suite_tail"] = [l for l in out2.split("\n") if l.startswith("test result")][:8]
        result["confirmed"] = bool(result["demo_without_change_passes"] and result["demo_with_change_fails"] and result["suite_with_change_passes"])
        # our checks against the changed tree
        result["checks"] = {}
        for c in checks:
            t0 = time.time()
            rc, out = sh([os.path.join(ROOT, "check"), c, "--tier", tier], cwd=ROOT, env={"WOODPILE_REPO": wt}, timeout=4 * 3600)
            last = [l for l in out.split("\n") if l.startswith(("VIOLATION", "OK ", "KNOWN"))]
            result["checks"][c] = dict(rc=rc, verdict=last[-1] if last else out[-300:], wall_s=round(time.time() - t0, 1), tier=tier)
    finally:
        sh("git -C /repo worktree remove --force %s" % wt)
        shutil.rmtree(tgt, ignore_errors=True)
        shutil.rmtree(tgt + "-cfg", ignore_errors=True)
        # only this scratch tree's harness target (checklib: work/target-<blake2b(repo path)>), so that
        # several confirmations can run side by side
        import hashlib
        shutil.rmtree(os.path.join(ROOT, "work", "target-" + hashlib.blake2b(os.path.abspath(wt).encode(), digest_size=4).hexdigest()), ignore_errors=True)
    print(json.dumps(result, indent=1))
    if result["confirmed"]:
        dst = os.path.join(ROOT, "seeded", name)
        os.makedirs(dst, exist_ok=True)
        if os.path.abspath(src) != os.path.abspath(dst):
            shutil.copy(os.path.join(src, "patch.diff"), dst)
            shutil.copy(demo_src, dst)
        old = meta.get("confirmation", {}).get("checks", {})
        for c, r in old.items():      # keep verdicts of checks not re-run this time
            result["checks"].setdefault(c, r)
        meta["confirmation"] = result
        meta["what_was_run"] = ["cargo test --workspace --no-fail-fast --offline (with change): passes",
                                "cargo test -p %s --test %s --offline: fails with change, passes without" % (crate, testname)] + \
                               ["WOODPILE_REPO=<scratch with change> ./check %s --tier %s -> %s" % (c, r.get("tier", "quick"), r["verdict"]) for c, r in result["checks"].items()]
        json.dump(meta, open(os.path.join(dst, "meta.json"), "w"), indent=1)
    return 0 if result["confirmed"] else 1

if __name__ == "__main__":
    sys.exit(main())

#!/bin/bash
# Runs every claimed check (quick tier by default) on /repo and prints one line each.
cd "$(dirname "$0")/.."
tier=${1:-quick}
fail=0
for p in $(python3 -c "
import json;print(' '.join(c['property_id'] for c in json.load(open('MANIFEST.json'))['checks']))"); do
  out=$(./check $p --tier $tier 2>/dev/null | tail -1)
  echo "$out"
  case "$out" in OK*) ;; *) fail=1;; esac
done
exit $fail

#!/bin/sh
# Run once after a fresh restore, offline: build the Lean project (models, proofs,
# native model driver) and the Rust harness against /repo's working tree.
set -e
cd "$(dirname "$0")"
export CARGO_NET_OFFLINE=true
python3 tools/extract_consts.py >/dev/null
cp /repo/Cargo.lock harness/Cargo.lock 2>/dev/null || true
(cd lean && lake build Woodpile wpmodel)
(cd harness && cargo build --release --offline && cargo build --profile noassert --offline)
echo "setup done"
